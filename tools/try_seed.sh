#!/bin/bash
# usage: try_seed.sh <patch.diff> <prop> [<prop> ...]  : apply to /repo, run the quick checks, undo.
# Holds the repo lock (see build() in /verif/check) exclusively for the whole time, so background
# checks started meanwhile wait instead of compiling the seeded tree. Evidence goes to a scratch
# directory (DVERIF_EVIDENCE_DIR), not to /verif/evidence.
P=$1; shift
exec 9>/tmp/dverif-repo.lock
flock -x 9
export DVERIF_LOCK_HELD=1
export DVERIF_EVIDENCE_DIR=/tmp/seed-evidence
mkdir -p $DVERIF_EVIDENCE_DIR
cd /repo && git apply $P || { echo "patch does not apply"; exit 2; }
cd /verif
for c in "$@"; do
  ./check $c --tier quick 2>&1 | grep -E "^\[C|VIOLATION|signature=|RUN-UNUS|BUILD-FAILED" | cut -c1-260 | head -8
done
cd /repo && git checkout -- . && git status --short | head -3
