#!/bin/bash
# usage: silence.sh <tier> <budget|-> <seed> [props...] : runs checks on the current tree at VERIF_SEED=<seed> with evidence redirected
# to a scratch dir; prints one line per check and every unlisted signature. Used to make sure the checks stay silent on
# the unchanged tree at other seeds / larger budgets than the registered commands use.
T=$1; B=$2; S=$3; shift 3
P=${@:-C01 C02 C03 C04 C05 C06 C07 C08 C09 C10 C11 C12 C13 C14 C15 C16 C17 C18 C19}
cd /verif
export DVERIF_EVIDENCE_DIR=/tmp/silence-evidence-$S
mkdir -p $DVERIF_EVIDENCE_DIR
for c in $P; do
  if [ "$B" = "-" ]; then VERIF_SEED=$S ./check $c --tier $T > /tmp/silence-$S-$c.log 2>&1; else VERIF_SEED=$S ./check $c --tier $T --budget $B > /tmp/silence-$S-$c.log 2>&1; fi
  rc=$?
  echo "seed=$S $c rc=$rc $(grep -E '^\[C' /tmp/silence-$S-$c.log | tail -1 | cut -c1-200)"
  grep -E "signature=|RUN-UNUSABLE|BUILD-FAILED" /tmp/silence-$S-$c.log | sed 's/ profile=.*//' | sort | uniq -c | sort -rn | head -8
done
