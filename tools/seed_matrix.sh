#!/bin/bash
# usage: seed_matrix.sh [Sxx ...] : for each seeded change run the quick check of the property it
# breaks (plus any extra properties listed in meta.json "also_run") on the seeded tree and append the
# outcome to /verif/seeded/RESULTS.tsv (seed, property, rc-ish verdict, first violation signature).
cd /verif
S=${@:-$(ls seeded | grep '^S')}
for s in $S; do
  props=$(python3 -c "import json;m=json.load(open('seeded/$s/meta.json'));print(' '.join([m['breaks_property']]+m.get('also_run',[])))")
  for p in $props; do
    out=$(tools/try_seed.sh /verif/seeded/$s/patch.diff $p 2>&1)
    nviol=$(echo "$out" | grep -c '^VIOLATION')
    sig=$(echo "$out" | grep -m1 -o 'signature=[^ ]*')
    summary=$(echo "$out" | grep -m1 '^\[C' | grep -o 'violations=[0-9]*')
    echo -e "$s\t$p\t$([ $nviol -gt 0 ] && echo DETECTED || echo MISSED)\t$summary\t$sig\t$(date +%F_%T)" | tee -a seeded/RESULTS.tsv
  done
done
