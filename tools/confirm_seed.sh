#!/bin/bash
# usage: confirm_seed.sh <worktree>   (the worktree has the seeded change applied and tests/seeded_demo.rs present)
# Confirms independently: demo fails with the change, passes without it, full suite passes with it.
# (No `git stash`: the stash list is shared between all worktrees of a repository.)
W=$1
cd $W || exit 2
export CARGO_TARGET_DIR=$W/target
OUT=$W/_seed/confirm.txt
: > $OUT
if ! diff -q <(git diff -- src) $W/_seed/patch.diff >/dev/null; then echo "== WARNING: working tree diff differs from _seed/patch.diff; using _seed/patch.diff" >> $OUT; git checkout -- src; git apply $W/_seed/patch.diff || { echo "patch does not apply" >> $OUT; cat $OUT; exit 2; }; fi
demo() { cargo nextest run --offline --test seeded_demo --no-fail-fast 2>&1 | tail -3; }
echo "== demo WITH change" >> $OUT; demo >> $OUT
git apply -R $W/_seed/patch.diff
echo "== demo WITHOUT change" >> $OUT; demo >> $OUT
git apply $W/_seed/patch.diff
mv tests/seeded_demo.rs /tmp/seeded_demo_$$.rs
echo "== full suite WITH change" >> $OUT
cargo nextest run --workspace --no-fail-fast --test-threads 8 --offline -E 'not test(test_builder_toroidal_periodic_3d_success)' 2>&1 | tail -2 >> $OUT
mv /tmp/seeded_demo_$$.rs tests/seeded_demo.rs
echo "== done" >> $OUT
cat $OUT
