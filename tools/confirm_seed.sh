#!/bin/bash
# usage: confirm_seed.sh <worktree>   (the worktree has the seeded change applied and tests/seeded_demo.rs present)
# Confirms independently: demo fails with the change, passes without it, full suite passes with it.
W=$1
cd $W || exit 2
export CARGO_TARGET_DIR=$W/target
OUT=$W/_seed/confirm.txt
: > $OUT
demo() { cargo nextest run --offline --test seeded_demo 2>&1 | tail -3; }
echo "== demo WITH change" >> $OUT; demo >> $OUT
git stash push -q -- src
echo "== demo WITHOUT change" >> $OUT; demo >> $OUT
git stash pop -q
mv tests/seeded_demo.rs /tmp/seeded_demo_$$.rs
echo "== full suite WITH change" >> $OUT
cargo nextest run --workspace --no-fail-fast --test-threads 8 --offline -E 'not test(test_builder_toroidal_periodic_3d_success)' 2>&1 | tail -2 >> $OUT
mv /tmp/seeded_demo_$$.rs tests/seeded_demo.rs
echo "== done" >> $OUT
cat $OUT
