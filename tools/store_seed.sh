#!/bin/bash
# usage: store_seed.sh <prop> : copies /tmp/mut-<prop>/_seed/{patch.diff,seeded_demo.rs,notes.md,confirm.txt} to /verif/seeded/S<nn>/
P=$1; N=${P#C}; D=/verif/seeded/S$N
mkdir -p $D
cp /tmp/mut-$P/_seed/patch.diff /tmp/mut-$P/_seed/notes.md $D/
cp /tmp/mut-$P/tests/seeded_demo.rs $D/ 2>/dev/null || cp /tmp/mut-$P/_seed/seeded_demo.rs $D/
cp /tmp/mut-$P/_seed/confirm.txt $D/confirm.txt
git -C /tmp/mut-$P rev-parse --short HEAD > $D/base_commit.txt
ls $D
