#!/bin/bash
# usage: store_seed2.sh <worktree> <Sid> : like store_seed.sh for arbitrary worktree / id
W=$1; D=/verif/seeded/$2
mkdir -p $D
cp $W/_seed/patch.diff $W/_seed/notes.md $D/
cp $W/tests/seeded_demo.rs $D/ 2>/dev/null || cp $W/_seed/seeded_demo.rs $D/
cp $W/_seed/confirm.txt $D/confirm.txt
git -C $W rev-parse --short HEAD > $D/base_commit.txt
ls $D | tr '\n' ' '
