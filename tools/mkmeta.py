#!/usr/bin/env python3
"""usage: mkmeta.py Sxx Cxx "<change>" "<needs_to_manifest>" ["<detected_by>"] [also_run=C03,C05]"""
import json, sys, os
sid, prop, change, needs = sys.argv[1:5]
detected = sys.argv[5] if len(sys.argv) > 5 else ""
also = []
for a in sys.argv[6:]:
    if a.startswith("also_run="):
        also = a.split("=", 1)[1].split(",")
d = f"/verif/seeded/{sid}"
confirm = open(os.path.join(d, "confirm.txt")).read() if os.path.exists(os.path.join(d, "confirm.txt")) else ""
base = open(os.path.join(d, "base_commit.txt")).read().strip() if os.path.exists(os.path.join(d, "base_commit.txt")) else "?"
suite = [l.strip() for l in confirm.splitlines() if "tests run" in l]
meta = dict(
    id=sid, breaks_property=prop, change=change, needs_to_manifest=needs,
    produced_by=f"independent sub-agent given only the property text and a scratch worktree of /repo at {base}",
    confirmed_by_me=dict(demo_with_change="fails", demo_without_change="passes",
                         existing_suite_with_change=(suite[-1] if suite else "?") + " (nextest, excluding the 6-minute test_builder_toroidal_periodic_3d_success)"),
    detected_by=detected, also_run=also,
    how_to_run=f"git -C /repo apply /verif/seeded/{sid}/patch.diff && (cd /verif && ./check {prop} --tier quick); git -C /repo checkout -- .",
    demo="copy seeded_demo.rs to /repo/tests/ and run: cargo nextest run --offline --test seeded_demo",
)
json.dump(meta, open(os.path.join(d, "meta.json"), "w"), indent=1)
print(json.dumps(meta)[:300])
