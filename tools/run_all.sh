#!/bin/bash
# usage: run_all.sh quick|thorough [props...]  : runs the checks on the current tree, summary to stdout
T=${1:-quick}; shift
P=${@:-C01 C02 C03 C04 C05 C06 C07 C08 C09 C10 C11 C12 C13 C14 C15 C16 C17 C18 C19}
cd /verif
for c in $P; do
  ./check $c --tier $T > /tmp/runall-$c.log 2>&1; rc=$?
  echo "$c rc=$rc $(grep -E '^\[C' /tmp/runall-$c.log | tail -1)"
  grep -E "^VIOLATION|RUN-UNUSABLE|BUILD-FAILED" /tmp/runall-$c.log | head -3
done
